------------------------------ MODULE TagExpr ------------------------------
(***************************************************************************)
(* C20 -- validation expressions (struct tag `vd:"<expr>"`) follow the     *)
(* documented operator precedence and typing.                              *)
(*                                                                         *)
(* What is specified here is the DOCUMENTED language of                    *)
(* internal/tagexpr (validator/README.md "Syntax" + "Operator priority",   *)
(* expr.go comment "Priority", expr_test.go), not the implementation:      *)
(*                                                                         *)
(*   priority (high -> low)   () ! - literals   (unary)          level 7   *)
(*                            *  /  %                            level 6   *)
(*                            +  -                               level 5   *)
(*                            <  <=  >  >=                       level 4   *)
(*                            == !=                              level 3   *)
(*                            &&                                 level 2   *)
(*                            ||                                 level 1   *)
(*   binary operators associate to the left; numbers are float64;          *)
(*   `%` is float64(int64(a) % int64(b)); x/0 and x%0 are NaN (expr_test); *)
(*   `+` adds numbers or concatenates strings; len/regexp/in as in README. *)
(*                                                                         *)
(* The implementation (expr.go: parseExprNode builds a left-nested chain,  *)
(* sortPriority/subSortPriority/leftOperandToParent rotate it afterwards)  *)
(* is NOT transcribed: the point of the check is to cross the rotation     *)
(* code with an independent evaluator.  Parts:                             *)
(*   1. abstract syntax (trees as tagged tuples) and enumerations          *)
(*   2. PrintExpr(tree, parenStyle, spaceStyle)  -> concrete expression string *)
(*   3. Lex / Parse: precedence climbing over the documented table         *)
(*   4. Eval(tree, fieldValue): documented semantics over exact values     *)
(*   5. a small state machine walking all enumerated (tree, style, value)  *)
(*      triples so that TLC checks the spec-level theorems:                *)
(*        RoundTrip     Parse(PrintExpr(t, any style)) = t                     *)
(*        StyleFree     the verdict does not depend on parentheses/spacing *)
(*        DocExamples   the repository's documented examples evaluate to   *)
(*                      the documented results under Parse/Eval            *)
(*                                                                         *)
(* Numbers are scaled integers n/64 (|value| <= 512).  float64 arithmetic  *)
(* is exact on this grid (dyadic rationals with < 53 significant bits and  *)
(* correctly rounded IEEE operations), so whenever the exact result of an  *)
(* operation is on the grid the float64 result is that value; otherwise    *)
(* the result is "unk" (unknown number) and the case is not judged.        *)
(*                                                                         *)
(* Deliberately unconstrained (result kind "ill"/"unk" => only `no panic`  *)
(* is required by the trace specification):                                *)
(*   - every ill-typed application: arithmetic on non-numbers, ordering of *)
(*     mixed kinds, equality of different kinds ('50'==50 is true in the   *)
(*     engine by coercion - the property does not speak about it), logic   *)
(*     on non-booleans (truthiness), len of scalars, regexp on non-strings,*)
(*     in() over mixed kinds, anything involving a slice value or nil      *)
(*     other than nil == nil / nil != nil;                                 *)
(*   - results off the exact grid (1/3, values beyond 512);                *)
(*   - `%` when int64(divisor) is 0 for a non-zero divisor (documented     *)
(*     formula undefined) or an operand is NaN (int64(NaN) is platform     *)
(*     specific);                                                          *)
(*   - the verdict when the (well-typed) result is not a boolean           *)
(*     (the validator applies truthiness and accepts nil results);         *)
(*   - error texts; whether an ill-typed expression is a compile error.    *)
(***************************************************************************)
EXTENDS Integers, Sequences, FiniteSets, TLC

CONSTANTS McDepth,     \* depth of the exhaustive tree set walked by the state machine
          McLeafMode   \* "small" | "full": alphabet of that set;  "chain" / "funcs": see Init

Scale == 64
MaxMag == 512 * Scale

-----------------------------------------------------------------------------
(* 1. Abstract syntax.  A tree is a tuple whose first element is the tag:   *)
(*    <<"num", n>>  numeric literal n/64      <<"str", s>>   <<"bool", b>> *)
(*    <<"nil">>     <<"fld">>  the field reference `$`                      *)
(*    <<"not", t>>  <<"neg", t>>              unary ! and -                 *)
(*    <<"bin", op, l, r>>                     binary operator               *)
(*    <<"len", t>>  <<"re0", p>>  regexp('p')  <<"re", p, t>> regexp('p',t) *)
(*    <<"in", <<t1, ..., tn>> >>              in(t1, ..., tn)               *)

Num(n)  == <<"num", n>>
Str(s)  == <<"str", s>>
Bool(b) == <<"bool", b>>
Nil     == <<"nil">>
Fld     == <<"fld">>
Not(t)  == <<"not", t>>
Neg(t)  == <<"neg", t>>
Bin(op, l, r) == <<"bin", op, l, r>>
LenF(t) == <<"len", t>>
Re0(p)  == <<"re0", p>>
Re(p, t) == <<"re", p, t>>
In(args) == <<"in", args>>

MulOps == {"*", "/", "%"}
AddOps == {"+", "-"}
RelOps == {"<", "<=", ">", ">="}
EqOps  == {"==", "!="}
AllOps == MulOps \cup AddOps \cup RelOps \cup EqOps \cup {"&&", "||"}

\* the documented priority table
Prec(op) == CASE op \in MulOps -> 6
              [] op \in AddOps -> 5
              [] op \in RelOps -> 4
              [] op \in EqOps  -> 3
              [] op = "&&"     -> 2
              [] op = "||"     -> 1

Tag(t) == t[1]
IsLeaf(t) == Tag(t) \in {"num", "str", "bool", "nil", "fld"}
IsCall(t) == Tag(t) \in {"len", "re0", "re", "in"}

RECURSIVE Depth(_), HasFld(_), FldCount(_)
Max(a, b) == IF a >= b THEN a ELSE b
RECURSIVE MaxDepthOf(_, _)
MaxDepthOf(args, i) == IF i > Len(args) THEN 0 ELSE Max(Depth(args[i]), MaxDepthOf(args, i + 1))
Depth(t) == CASE IsLeaf(t) -> 1
              [] Tag(t) \in {"not", "neg", "len"} -> 1 + Depth(t[2])
              [] Tag(t) = "bin" -> 1 + Max(Depth(t[3]), Depth(t[4]))
              [] Tag(t) = "re0" -> 2
              [] Tag(t) = "re" -> 1 + Depth(t[3])
              [] Tag(t) = "in" -> 1 + MaxDepthOf(t[2], 1)
RECURSIVE SumFld(_, _)
SumFld(args, i) == IF i > Len(args) THEN 0 ELSE FldCount(args[i]) + SumFld(args, i + 1)
FldCount(t) == CASE Tag(t) = "fld" -> 1
                 [] Tag(t) \in {"num", "str", "bool", "nil"} -> 0
                 [] Tag(t) \in {"not", "neg", "len"} -> FldCount(t[2])
                 [] Tag(t) = "bin" -> FldCount(t[3]) + FldCount(t[4])
                 [] Tag(t) = "re0" -> 1            \* regexp('p') reads the current field
                 [] Tag(t) = "re" -> FldCount(t[3])
                 [] Tag(t) = "in" -> SumFld(t[2], 1)
HasFld(t) == FldCount(t) > 0

-----------------------------------------------------------------------------
(* 2. Printer.                                                              *)
(* paren styles:  "min"  parentheses only where the documented table needs  *)
(*                       them: a binary child of lower priority, or of the  *)
(*                       same priority on the right (left associativity);   *)
(*                       compound operands of unary operators               *)
(*                "bin"  additionally around every compound child           *)
(*                "all"  additionally around leaves and the whole expression*)
(* space styles:  "t" none;  "s" one blank around binary operators and      *)
(*                after commas;  "w" blanks and tabs around operators,      *)
(*                inside parentheses and around the whole expression.       *)
(* Lexical rules of the engine that the printer respects (spec_operand.go): *)
(* a sign in operand position directly followed by digits is part of the    *)
(* numeric literal, so Neg(Num(n)) is printed -(n) and never "- n"; unary   *)
(* operators are glued to their operand; `!` and `-` are printed bare only  *)
(* in front of a leaf, a call, or (for !) another !; string literals never  *)
(* contain quotes, parentheses, or backslashes.                             *)

ParenStyles == {"min", "bin", "all"}
SpaceStyles == {"t", "s", "w"}

Digits == <<"0", "1", "2", "3", "4", "5", "6", "7", "8", "9">>
RECURSIVE NatStr(_)
NatStr(n) == IF n < 10 THEN Digits[n + 1] ELSE NatStr(n \div 10) \o Digits[(n % 10) + 1]
\* literals are multiples of 1/4
AbsNumStr(a) == NatStr(a \div Scale) \o
                (CASE a % Scale = 0 -> ""
                   [] a % Scale = 32 -> ".5"
                   [] a % Scale = 16 -> ".25"
                   [] a % Scale = 48 -> ".75")
NumStr(n) == IF n < 0 THEN "-" \o AbsNumStr(-n) ELSE AbsNumStr(n)

OpPad(sp)  == CASE sp = "t" -> "" [] sp = "s" -> " " [] sp = "w" -> " \t"
OpPadR(sp) == CASE sp = "t" -> "" [] sp = "s" -> " " [] sp = "w" -> "  "
InPad(sp)  == IF sp = "w" THEN " " ELSE ""
Comma(sp)  == CASE sp = "t" -> "," [] sp = "s" -> ", " [] sp = "w" -> " ,  "
Wrap(s, sp) == "(" \o InPad(sp) \o s \o InPad(sp) \o ")"

RECURSIVE Pr(_, _, _), PrArgs(_, _, _, _), PrChild(_, _, _, _), PrUnaryOperand(_, _, _, _)

\* operand of a binary operator: needs = parentheses required by the priority table
PrChild(t, needs, ps, sp) ==
    LET s == Pr(t, ps, sp) IN
    IF needs \/ (ps = "bin" /\ ~IsLeaf(t) /\ ~IsCall(t)) \/ ps = "all" THEN Wrap(s, sp) ELSE s

PrUnaryOperand(u, t, ps, sp) ==
    LET bare == /\ ps # "all"
                /\ \/ (IsLeaf(t) /\ ~(Tag(t) = "num"))
                   \/ IsCall(t)
                   \/ (u = "!" /\ Tag(t) = "not")
                   \/ (u = "!" /\ Tag(t) = "num" /\ t[2] >= 0)
    IN IF bare THEN Pr(t, ps, sp) ELSE Wrap(Pr(t, ps, sp), sp)

PrArgs(args, i, ps, sp) ==
    IF i > Len(args) THEN ""
    ELSE (IF i > 1 THEN Comma(sp) ELSE "") \o Pr(args[i], IF ps = "all" THEN "bin" ELSE ps, sp) \o PrArgs(args, i + 1, ps, sp)

Pr(t, ps, sp) ==
    CASE Tag(t) = "num"  -> NumStr(t[2])
      [] Tag(t) = "str"  -> "'" \o t[2] \o "'"
      [] Tag(t) = "bool" -> IF t[2] THEN "true" ELSE "false"
      [] Tag(t) = "nil"  -> "nil"
      [] Tag(t) = "fld"  -> "$"
      [] Tag(t) = "not"  -> "!" \o PrUnaryOperand("!", t[2], ps, sp)
      [] Tag(t) = "neg"  -> "-" \o PrUnaryOperand("-", t[2], ps, sp)
      [] Tag(t) = "bin"  ->
            LET p == Prec(t[2])
                needL == Tag(t[3]) = "bin" /\ Prec(t[3][2]) < p
                needR == Tag(t[4]) = "bin" /\ Prec(t[4][2]) <= p
            IN PrChild(t[3], needL, ps, sp) \o OpPad(sp) \o t[2] \o OpPadR(sp) \o PrChild(t[4], needR, ps, sp)
      [] Tag(t) = "len"  -> "len(" \o InPad(sp) \o Pr(t[2], IF ps = "all" THEN "bin" ELSE ps, sp) \o InPad(sp) \o ")"
      [] Tag(t) = "re0"  -> "regexp(" \o InPad(sp) \o "'" \o t[2] \o "'" \o InPad(sp) \o ")"
      [] Tag(t) = "re"   -> "regexp(" \o InPad(sp) \o "'" \o t[2] \o "'" \o Comma(sp)
                               \o Pr(t[3], IF ps = "all" THEN "bin" ELSE ps, sp) \o InPad(sp) \o ")"
      [] Tag(t) = "in"   -> "in(" \o InPad(sp) \o PrArgs(t[2], 1, ps, sp) \o InPad(sp) \o ")"

PrintExpr(t, ps, sp) ==
    LET s == Pr(t, ps, sp) IN
    CASE ps = "all" /\ sp = "w" -> "  " \o Wrap(s, sp) \o " "
      [] ps = "all"             -> Wrap(s, sp)
      [] sp = "w"               -> " " \o s \o "  "
      [] OTHER                  -> s

-----------------------------------------------------------------------------
(* 3. Lexer and parser of the documented grammar (precedence climbing).     *)
(*    expr(m)  ::= unary { op expr(Prec(op)+1) }      for Prec(op) >= m      *)
(*    unary    ::= '!' unary | '-' unary | primary                          *)
(*                 ('-' glued to a number is the literal's sign)            *)
(*    primary  ::= number | 'string' | true | false | nil | $ | '(' expr ')'*)
(*               | len '(' expr ')' | regexp '(' 'string' [',' expr] ')'    *)
(*               | in '(' expr {',' expr} ')'                               *)

Ch(s, i) == SubSeq(s, i, i)
IsDigit(c) == c \in {"0", "1", "2", "3", "4", "5", "6", "7", "8", "9"}
IsAlpha(c) == c \in {"a", "b", "c", "d", "e", "f", "g", "h", "i", "j", "k", "l", "m", "n", "o", "p", "q", "r",
                     "s", "t", "u", "v", "w", "x", "y", "z"}
DigitVal(c) == CHOOSE d \in 0 .. 9 : Digits[d + 1] = c

Tok(k, s, n, pos) == [k |-> k, s |-> s, n |-> n, pos |-> pos]

RECURSIVE SpanWhileDigit(_, _), SpanWhileAlpha(_, _), SpanToQuote(_, _), DecVal(_, _, _)
SpanWhileDigit(s, i) == IF i <= Len(s) /\ IsDigit(Ch(s, i)) THEN SpanWhileDigit(s, i + 1) ELSE i
SpanWhileAlpha(s, i) == IF i <= Len(s) /\ IsAlpha(Ch(s, i)) THEN SpanWhileAlpha(s, i + 1) ELSE i
SpanToQuote(s, i) == IF i <= Len(s) /\ Ch(s, i) # "'" THEN SpanToQuote(s, i + 1) ELSE i
DecVal(s, i, j) == IF i >= j THEN 0 ELSE DecVal(s, i, j - 1) * 10 + DigitVal(Ch(s, j - 1))
FracVal(f) == CASE f = "" -> 0 [] f = "5" -> 32 [] f = "25" -> 16 [] f = "75" -> 48 [] f = "0" -> 0

TwoCharOps == {"||", "&&", "==", "!=", ">=", "<="}
OneCharOps == {"+", "-", "*", "/", "%", "<", ">"}

RECURSIVE Lex(_, _, _)
Lex(s, i, acc) ==
    IF i > Len(s) THEN acc
    ELSE LET c == Ch(s, i) IN
      CASE c \in {" ", "\t"} -> Lex(s, i + 1, acc)
        [] IsDigit(c) ->
             LET j == SpanWhileDigit(s, i)
                 hasFrac == j + 1 <= Len(s) /\ Ch(s, j) = "." /\ IsDigit(Ch(s, j + 1))
                 k == IF hasFrac THEN SpanWhileDigit(s, j + 1) ELSE j
                 v == DecVal(s, i, j) * Scale + (IF hasFrac THEN FracVal(SubSeq(s, j + 1, k - 1)) ELSE 0)
             IN Lex(s, k, Append(acc, Tok("num", "", v, i)))
        [] c = "'" -> LET j == SpanToQuote(s, i + 1) IN Lex(s, j + 1, Append(acc, Tok("str", SubSeq(s, i + 1, j - 1), 0, i)))
        [] IsAlpha(c) -> LET j == SpanWhileAlpha(s, i) IN Lex(s, j, Append(acc, Tok("id", SubSeq(s, i, j - 1), 0, i)))
        [] c \in {"(", ")", ",", "$"} -> Lex(s, i + 1, Append(acc, Tok(c, c, 0, i)))
        [] i < Len(s) /\ SubSeq(s, i, i + 1) \in TwoCharOps -> Lex(s, i + 2, Append(acc, Tok("op", SubSeq(s, i, i + 1), 0, i)))
        [] c = "!" -> Lex(s, i + 1, Append(acc, Tok("!", c, 0, i)))
        [] c \in OneCharOps -> Lex(s, i + 1, Append(acc, Tok("op", c, 0, i)))
        [] OTHER -> Append(acc, Tok("bad", c, 0, i))

PR(t, p) == [t |-> t, p |-> p]
Bad == <<"bad">>

RECURSIVE PExpr(_, _, _), PClimb(_, _, _, _), PUnary(_, _), PPrimary(_, _), PArgs(_, _, _)

Is(toks, p, k) == p <= Len(toks) /\ toks[p].k = k
IsOp(toks, p) == Is(toks, p, "op")

PExpr(toks, p, m) == LET l == PUnary(toks, p) IN PClimb(toks, l.t, l.p, m)

PClimb(toks, left, p, m) ==
    IF IsOp(toks, p) /\ Prec(toks[p].s) >= m
    THEN LET op == toks[p].s
             r == PExpr(toks, p + 1, Prec(op) + 1)
         IN PClimb(toks, Bin(op, left, r.t), r.p, m)
    ELSE PR(left, p)

PUnary(toks, p) ==
    CASE Is(toks, p, "!") -> LET r == PUnary(toks, p + 1) IN PR(Not(r.t), r.p)
      [] IsOp(toks, p) /\ toks[p].s = "-" ->
            IF Is(toks, p + 1, "num") /\ toks[p + 1].pos = toks[p].pos + 1
            THEN PR(Num(0 - toks[p + 1].n), p + 2)
            ELSE LET r == PUnary(toks, p + 1) IN PR(Neg(r.t), r.p)
      [] OTHER -> PPrimary(toks, p)

\* arguments up to the closing parenthesis; returns the argument tuple and the position after ')'
PArgs(toks, p, acc) ==
    LET a == PExpr(toks, p, 1) IN
    IF Is(toks, a.p, ",") THEN PArgs(toks, a.p + 1, Append(acc, a.t))
    ELSE PR(Append(acc, a.t), a.p + 1)

PPrimary(toks, p) ==
    IF p > Len(toks) THEN PR(Bad, p)
    ELSE LET k == toks[p] IN
      CASE k.k = "num" -> PR(Num(k.n), p + 1)
        [] k.k = "str" -> PR(Str(k.s), p + 1)
        [] k.k = "$"   -> PR(Fld, p + 1)
        [] k.k = "("   -> LET r == PExpr(toks, p + 1, 1) IN PR(r.t, r.p + 1)
        [] k.k = "id" /\ k.s = "true"  -> PR(Bool(TRUE), p + 1)
        [] k.k = "id" /\ k.s = "false" -> PR(Bool(FALSE), p + 1)
        [] k.k = "id" /\ k.s = "nil"   -> PR(Nil, p + 1)
        [] k.k = "id" /\ k.s = "len"   -> LET r == PExpr(toks, p + 2, 1) IN PR(LenF(r.t), r.p + 1)
        [] k.k = "id" /\ k.s = "regexp" ->
              IF Is(toks, p + 3, ",")
              THEN LET r == PExpr(toks, p + 4, 1) IN PR(Re(toks[p + 2].s, r.t), r.p + 1)
              ELSE PR(Re0(toks[p + 2].s), p + 4)
        [] k.k = "id" /\ k.s = "in" -> LET r == PArgs(toks, p + 2, << >>) IN PR(In(r.t), r.p)
        [] OTHER -> PR(Bad, p + 1)

Parse(s) == LET toks == Lex(s, 1, << >>)
                r == PExpr(toks, 1, 1)
            IN IF r.p = Len(toks) + 1 THEN r.t ELSE Bad

-----------------------------------------------------------------------------
(* 4. Documented semantics.                                                 *)
(* Values: [k, n, s, b]   k = "num" (n/64) | "nan" | "str" | "bool" | "nil" *)
(*                            | "slice" (n = length)                        *)
(*                            | "unk"  well-typed number the spec does not   *)
(*                                     determine (off grid, undefined %)    *)
(*                            | "ill"  ill-typed application                 *)
V(k, n, s, b) == [k |-> k, n |-> n, s |-> s, b |-> b]
NumV(n)   == IF n > MaxMag \/ n < 0 - MaxMag THEN V("unk", 0, "", FALSE) ELSE V("num", n, "", FALSE)
NaN       == V("nan", 0, "", FALSE)
Unk       == V("unk", 0, "", FALSE)
Ill       == V("ill", 0, "", FALSE)
StrV(s)   == V("str", 0, s, FALSE)
BoolV(b)  == V("bool", 0, "", b)
NilV      == V("nil", 0, "", FALSE)
SliceV(n) == V("slice", n, "", FALSE)

\* A field value as it appears in a case: kind of the Go field and its content.
\*   int / float / ptrint: number n/64;  str;  bool;  nilptr (nil *int);  slice (n = length)
FieldV(fv) == CASE fv.kind \in {"int", "float", "ptrint"} -> NumV(fv.n)
                [] fv.kind = "str"    -> StrV(fv.s)
                [] fv.kind = "bool"   -> BoolV(fv.b)
                [] fv.kind = "nilptr" -> NilV
                [] fv.kind = "slice"  -> SliceV(fv.n)

Numeric(v) == v.k \in {"num", "nan", "unk"}
Abs(n) == IF n < 0 THEN 0 - n ELSE n
Sign(n) == IF n < 0 THEN 0 - 1 ELSE 1
Trunc(n) == Sign(n) * (Abs(n) \div Scale)          \* int64(x) for x = n/64

Arith(op, a, b) ==
    IF ~(Numeric(a) /\ Numeric(b)) THEN Ill
    ELSE CASE op = "/" ->
                IF b.k = "num" /\ b.n = 0 THEN NaN                       \* documented: x/0 is NaN
                ELSE IF a.k = "unk" \/ b.k = "unk" THEN Unk
                ELSE IF a.k = "nan" \/ b.k = "nan" THEN NaN
                ELSE IF (Abs(a.n) * Scale) % Abs(b.n) = 0
                     THEN NumV(Sign(a.n) * Sign(b.n) * ((Abs(a.n) * Scale) \div Abs(b.n)))
                     ELSE Unk
           [] op = "%" ->
                IF b.k = "num" /\ b.n = 0 THEN NaN
                ELSE IF a.k # "num" \/ b.k # "num" THEN Unk              \* int64(NaN) is platform specific
                ELSE IF Trunc(b.n) = 0 THEN Unk                          \* documented formula undefined
                ELSE NumV(Sign(a.n) * (Abs(Trunc(a.n)) % Abs(Trunc(b.n))) * Scale)
           [] OTHER ->
                IF a.k = "unk" \/ b.k = "unk" THEN Unk
                ELSE IF a.k = "nan" \/ b.k = "nan" THEN NaN
                ELSE (CASE op = "+" -> NumV(a.n + b.n)
                        [] op = "-" -> NumV(a.n - b.n)
                        [] op = "*" -> IF (a.n * b.n) % Scale = 0 THEN NumV((a.n * b.n) \div Scale) ELSE Unk)

\* strings over the letters below, compared bytewise like Go strings
Rank(c) == CASE c = "a" -> 1 [] c = "b" -> 2 [] c = "c" -> 3 [] OTHER -> 9
RECURSIVE StrLess(_, _, _)
StrLess(s, t, i) == IF i > Len(t) THEN FALSE
                    ELSE IF i > Len(s) THEN TRUE
                    ELSE IF Rank(Ch(s, i)) # Rank(Ch(t, i)) THEN Rank(Ch(s, i)) < Rank(Ch(t, i))
                    ELSE StrLess(s, t, i + 1)

Rel(op, a, b) ==
    CASE a.k = "unk" \/ b.k = "unk" -> Unk          \* "unk" carries no kind (an undetermined number or boolean)
      [] Numeric(a) /\ Numeric(b) ->
            IF a.k = "unk" \/ b.k = "unk" THEN Unk
            ELSE IF a.k = "nan" \/ b.k = "nan" THEN BoolV(FALSE)          \* IEEE: every ordering with NaN is false
            ELSE BoolV(CASE op = "<" -> a.n < b.n [] op = "<=" -> a.n <= b.n
                         [] op = ">" -> a.n > b.n [] op = ">=" -> a.n >= b.n)
      [] a.k = "str" /\ b.k = "str" ->
            BoolV(CASE op = "<" -> StrLess(a.s, b.s, 1) [] op = "<=" -> ~StrLess(b.s, a.s, 1)
                    [] op = ">" -> StrLess(b.s, a.s, 1) [] op = ">=" -> ~StrLess(a.s, b.s, 1))
      [] OTHER -> Ill

\* equality of two values of the same kind: TRUE / FALSE, or "unk"/"ill" as a value
Same(a, b) ==
    CASE a.k = "unk" \/ b.k = "unk" -> Unk
      [] Numeric(a) /\ Numeric(b) ->
            IF a.k = "unk" \/ b.k = "unk" THEN Unk
            ELSE IF a.k = "nan" \/ b.k = "nan" THEN BoolV(FALSE)          \* NaN == x is false
            ELSE BoolV(a.n = b.n)
      [] a.k = "str" /\ b.k = "str"   -> BoolV(a.s = b.s)
      [] a.k = "bool" /\ b.k = "bool" -> BoolV(a.b = b.b)
      [] a.k = "nil" /\ b.k = "nil"   -> BoolV(TRUE)
      [] OTHER -> Ill
Neq(r) == IF r.k = "bool" THEN BoolV(~r.b) ELSE r

Logic(op, a, b) ==
    IF a.k = "ill" \/ b.k = "ill" THEN Ill
    ELSE IF a.k = "unk" \/ b.k = "unk" THEN (IF a.k \in {"bool", "unk"} /\ b.k \in {"bool", "unk"} THEN Unk ELSE Ill)
    ELSE IF a.k = "bool" /\ b.k = "bool" THEN BoolV(IF op = "&&" THEN a.b /\ b.b ELSE a.b \/ b.b)
    ELSE Ill

\* the regular expressions used in cases, with their meaning
Patterns == {"^a", "b", "^a*b"}
RECURSIVE Contains(_, _, _), SkipA(_, _)
Contains(s, c, i) == i <= Len(s) /\ (Ch(s, i) = c \/ Contains(s, c, i + 1))
SkipA(s, i) == IF i <= Len(s) /\ Ch(s, i) = "a" THEN SkipA(s, i + 1) ELSE i
Match(p, s) == CASE p = "^a"   -> Len(s) >= 1 /\ Ch(s, 1) = "a"
                 [] p = "b"    -> Contains(s, "b", 1)
                 [] p = "^a*b" -> LET i == SkipA(s, 1) IN i <= Len(s) /\ Ch(s, i) = "b"

\* any operand "ill" makes the result "ill"; otherwise any "unk" makes it "unk"
RECURSIVE Eval(_, _), EvalIn(_, _, _, _)
Strict(a, r) == IF a.k = "ill" THEN Ill ELSE IF a.k = "unk" /\ r.k # "ill" THEN Unk ELSE r
Strict2(a, b, r) == IF a.k = "ill" \/ b.k = "ill" THEN Ill ELSE r

\* in(x, e1..en): x and every ei of one scalar kind; TRUE iff x equals some ei
EvalIn(x, args, i, fv) ==
    IF i > Len(args) THEN BoolV(FALSE)
    ELSE LET e == Eval(args[i], fv)
             rest == EvalIn(x, args, i + 1, fv)
             same == IF e.k \in {"num", "nan", "unk", "str", "bool"} THEN Same(x, e) ELSE Ill
         IN IF same.k = "ill" \/ rest.k = "ill" THEN Ill
            ELSE IF same.k = "unk" \/ rest.k = "unk" THEN Unk
            ELSE BoolV(same.b \/ rest.b)

Eval(t, fv) ==
    CASE Tag(t) = "num"  -> NumV(t[2])
      [] Tag(t) = "str"  -> StrV(t[2])
      [] Tag(t) = "bool" -> BoolV(t[2])
      [] Tag(t) = "nil"  -> NilV
      [] Tag(t) = "fld"  -> FieldV(fv)
      [] Tag(t) = "not"  -> LET a == Eval(t[2], fv) IN
                            IF a.k = "bool" THEN BoolV(~a.b) ELSE IF a.k = "unk" THEN Unk ELSE Ill
      [] Tag(t) = "neg"  -> LET a == Eval(t[2], fv) IN
                            (CASE a.k = "num" -> NumV(0 - a.n) [] a.k = "nan" -> NaN [] a.k = "unk" -> Unk [] OTHER -> Ill)
      [] Tag(t) = "bin"  ->
            LET op == t[2]
                a == Eval(t[3], fv)
                b == Eval(t[4], fv)
            IN (CASE op = "+" /\ a.k = "str" /\ b.k = "str" -> StrV(a.s \o b.s)
                  [] op \in MulOps \cup AddOps /\ ~(op = "+" /\ a.k = "str" /\ b.k = "str") -> Strict2(a, b, Arith(op, a, b))
                  [] op \in RelOps -> Strict2(a, b, Rel(op, a, b))
                  [] op = "=="     -> Strict2(a, b, Same(a, b))
                  [] op = "!="     -> Strict2(a, b, Neq(Same(a, b)))
                  [] op \in {"&&", "||"} -> Logic(op, a, b))
      [] Tag(t) = "len"  -> LET a == Eval(t[2], fv) IN
                            (CASE a.k = "str" -> NumV(Len(a.s) * Scale) [] a.k = "slice" -> NumV(a.n * Scale) [] OTHER -> Ill)
      [] Tag(t) = "re0"  -> LET a == FieldV(fv) IN IF a.k = "str" THEN BoolV(Match(t[2], a.s)) ELSE Ill
      [] Tag(t) = "re"   -> LET a == Eval(t[3], fv) IN IF a.k = "str" THEN BoolV(Match(t[2], a.s)) ELSE Ill
      [] Tag(t) = "in"   -> IF Len(t[2]) < 2 THEN Ill
                            ELSE LET x == Eval(t[2][1], fv) IN
                                 IF x.k \in {"num", "nan", "unk", "str", "bool"} THEN EvalIn(x, t[2], 2, fv) ELSE Ill

WellTyped(t, fv) == Eval(t, fv).k # "ill"
\* the verdict is determined exactly when the documented result is a boolean
Judged(t, fv)   == Eval(t, fv).k = "bool"
Expected(t, fv) == Eval(t, fv).b
\* what the trace specification demands of the recorded outcome
Verdict(t, fv)  == LET r == Eval(t, fv) IN
                   IF r.k = "bool" THEN (IF r.b THEN "ok" ELSE "invalid") ELSE "any"

(* Argument patterns of the two panics found in the unchanged tree (known findings), computed from the case *)
(* so that the known-finding signature is specific:                                                         *)
(*  "modfrac": some `%` whose divisor evaluates to a non-zero number with int64(divisor) = 0, or to a value  *)
(*             this specification does not determine (inexact, NaN, ill-typed: the engine coerces it)       *)
(*  "eqslice": the field is a slice and some ==, != or in() has the field reference in two operands        *)
RECURSIVE ModFrac(_, _), AnyModFrac(_, _, _), EqSlice(_), AnyEqSlice(_, _)
AnyModFrac(args, i, fv) == i <= Len(args) /\ (ModFrac(args[i], fv) \/ AnyModFrac(args, i + 1, fv))
ModFrac(t, fv) ==
    CASE IsLeaf(t) \/ Tag(t) = "re0" -> FALSE
      [] Tag(t) \in {"not", "neg", "len"} -> ModFrac(t[2], fv)
      [] Tag(t) = "re" -> ModFrac(t[3], fv)
      [] Tag(t) = "in" -> AnyModFrac(t[2], 1, fv)
      [] Tag(t) = "bin" ->
            \/ ModFrac(t[3], fv) \/ ModFrac(t[4], fv)
            \/ /\ t[2] = "%"
               /\ LET b == Eval(t[4], fv) IN b.k \in {"unk", "nan", "ill"} \/ (b.k = "num" /\ b.n # 0 /\ Trunc(b.n) = 0)
AnyEqSlice(args, i) == i <= Len(args) /\ (EqSlice(args[i]) \/ AnyEqSlice(args, i + 1))
TwoWithFld(args) == Cardinality({i \in DOMAIN args : HasFld(args[i])}) >= 2
EqSlice(t) ==
    CASE IsLeaf(t) \/ Tag(t) = "re0" -> FALSE
      [] Tag(t) \in {"not", "neg", "len"} -> EqSlice(t[2])
      [] Tag(t) = "re" -> EqSlice(t[3])
      [] Tag(t) = "in" -> TwoWithFld(t[2]) \/ AnyEqSlice(t[2], 1)
      [] Tag(t) = "bin" -> \/ EqSlice(t[3]) \/ EqSlice(t[4])
                           \/ (t[2] \in EqOps /\ HasFld(t[3]) /\ HasFld(t[4]))
Hazard(t, fv) == [modfrac |-> ModFrac(t, fv), eqslice |-> fv.kind = "slice" /\ EqSlice(t)]

-----------------------------------------------------------------------------
(* Enumerations.  Field values and the sorted (typed) / unsorted tree sets.  *)
FV(kind, n, s, b) == [kind |-> kind, n |-> n, s |-> s, b |-> b]
IntVals   == {FV("int", k * Scale, "", FALSE) : k \in {0 - 1, 0, 1, 2}}
NumVals   == IntVals \cup {FV("float", 32, "", FALSE), FV("ptrint", Scale, "", FALSE)}
StrVals   == {FV("str", 0, s, FALSE) : s \in {"", "a", "ab"}}
BoolVals  == {FV("bool", 0, "", b) : b \in BOOLEAN}
NilVals   == {FV("nilptr", 0, "", FALSE)}
SliceVals == {FV("slice", k, "", FALSE) : k \in {0, 2}}
AllVals   == NumVals \cup StrVals \cup BoolVals \cup NilVals \cup SliceVals
ValsOfSort(fk) == CASE fk = "num" -> NumVals [] fk = "str" -> StrVals [] fk = "bool" -> BoolVals
                    [] fk = "nil" -> NilVals [] fk = "slice" -> SliceVals
Sorts == {"num", "str", "bool", "nil", "slice"}

\* Sorted trees: NT/ST/BT = trees of numeric / string / boolean sort of depth <= d when the field has sort fk.
\* cfgp: [num: numeric literals, str: string literals, arith, rel, eq, logic: operator sets, funcs: BOOLEAN]
RECURSIVE NT(_, _, _), ST(_, _, _), BT(_, _, _)
Bins(ops, L, R) == {Bin(op, l, r) : op \in ops, l \in L, r \in R}
NT(fk, d, c) ==
    IF d <= 1 THEN {Num(n) : n \in c.num} \cup (IF fk = "num" THEN {Fld} ELSE {})
    ELSE LET P == NT(fk, d - 1, c) IN
         P \cup Bins(c.arith, P, P) \cup {Neg(x) : x \in {y \in P : Tag(y) # "num"}}
           \cup (IF c.funcs THEN {LenF(x) : x \in ST(fk, d - 1, c)} \cup (IF fk = "slice" THEN {LenF(Fld)} ELSE {}) ELSE {})
ST(fk, d, c) ==
    IF d <= 1 THEN {Str(s) : s \in c.str} \cup (IF fk = "str" THEN {Fld} ELSE {})
    ELSE LET P == ST(fk, d - 1, c) IN P \cup Bins({"+"}, P, P)
BT(fk, d, c) ==
    IF d <= 1 THEN {Bool(b) : b \in c.bool} \cup (IF fk = "bool" THEN {Fld} ELSE {})
    ELSE LET P == BT(fk, d - 1, c)
             N == NT(fk, d - 1, c)
             S == ST(fk, d - 1, c)
         IN P \cup Bins(c.rel \cup c.eq, N, N) \cup Bins(c.rel \cup c.eq, S, S) \cup Bins(c.eq \cup c.logic, P, P)
              \cup {Not(x) : x \in P}
              \cup (IF fk = "nil" THEN Bins(c.eq, {Fld, Nil}, {Fld, Nil}) ELSE {})
              \cup (IF c.funcs
                    THEN (IF fk = "str" THEN {Re0(p) : p \in c.pat} ELSE {})
                         \cup {Re(p, x) : p \in c.pat, x \in S}
                         \cup {In(<<x, y>>) : x \in {z \in N : IsLeaf(z)}, y \in {z \in N : IsLeaf(z)}}
                         \cup {In(<<x, y, z>>) : x \in {z \in S : IsLeaf(z)}, y \in {z \in S : IsLeaf(z)}, z \in {w \in S : Tag(w) = "str"}}
                    ELSE {})

\* Sorted trees by SIZE: NZ / BZ = numeric / boolean sorted trees with exactly k binary operators and no other
\* compound node.  Printed with minimal parentheses these are the flat operator chains (and their parenthesised
\* variants) on which the engine's post-parse rotation has to do all the work.
RECURSIVE NZL(_, _, _), BZ(_, _, _)
\* numeric chains with exactly k binary operators over the leaf set L
NZL(L, k, c) ==
    IF k = 0 THEN L
    ELSE UNION {Bins(c.arith, NZL(L, i, c), NZL(L, k - 1 - i, c)) : i \in 0 .. k - 1}
NLeaves(fk, c) == {Num(n) : n \in c.num} \cup (IF fk = "num" THEN {Fld} ELSE {})
NZ(fk, k, c) == NZL(NLeaves(fk, c), k, c)
BZ(fk, k, c) ==
    IF k = 0 THEN {Bool(b) : b \in c.bool} \cup (IF fk = "bool" THEN {Fld} ELSE {})
    ELSE UNION {Bins(c.rel \cup c.eq, NZ(fk, i, c), NZ(fk, k - 1 - i, c))
                  \cup Bins(c.logic \cup c.eq, BZ(fk, i, c), BZ(fk, k - 1 - i, c)) : i \in 0 .. k - 1}

\* F: calls of in() whose ARGUMENTS are operator chains with 1..m binary operators, in the first, second and third
\*    argument position, bare, negated and inside a larger expression.  (The engine parses and re-associates every
\*    argument of a registered function - len, in, ... - separately from the enclosing expression:
\*    spec_func.go parseFuncSign; the documented precedence applies inside arguments as anywhere else.)
FTrees(fk, m, c) ==
    LET NC == UNION {NZ(fk, k, c) : k \in 1 .. m}
        NM == NZ(fk, m, c)
        BC == UNION {BZ(fk, k, c) : k \in 1 .. m}
        NL == NLeaves(fk, c)
        n0 == Num(CHOOSE n \in c.num : TRUE)
    IN {In(<<n, x>>) : n \in NC, x \in NL} \cup {In(<<x, n>>) : n \in NC, x \in NL}
       \cup {In(<<x, n0, n>>) : n \in NM, x \in NL}
       \cup {Not(In(<<n, n0>>)) : n \in NM}
       \cup {Bin("&&", Bool(TRUE), In(<<n, n0>>)) : n \in NM}
       \cup {In(<<b, Bool(TRUE)>>) : b \in BC} \cup {In(<<Bool(FALSE), b>>) : b \in BC}
\* L: len($) as an operand inside mixed arithmetic chains under a comparison (field sorts str and slice)
LTrees(m, c) ==
    LET LL == {Num(n) : n \in c.num} \cup {LenF(Fld)}
    IN UNION {Bins(c.rel \cup c.eq, NZL(LL, i, c), NZL(LL, k - 1 - i, c)) : <<k, i>> \in {<<kk, ii>> \in (1 .. m) \X (0 .. m - 1) : ii < kk}}

\* P: products of a factor that is ZERO for some field value with a factor that is NaN for the same value
\*    (x / 0 and x % 0 are NaN; IEEE-754: 0 * NaN = NaN, every ordering / equality with NaN is false, != is true),
\*    in both factor orders, compared with 0 (full: also with 1) by all six comparison operators on either side,
\*    and bare (numeric top-level result: only `no panic`).  Zero-able factors: $, $-1 / 1-$, len($), the literal 0.
PTrees(fk, full) ==
    LET Z1 == CASE fk = "num" -> {Fld, Bin("-", Fld, Num(Scale)), Num(0)}
                [] fk \in {"str", "slice"} -> {LenF(Fld), Num(0)}
                [] OTHER -> {Num(0)}
        Z2 == CASE fk = "num" -> {Fld, Bin("-", Num(Scale), Fld), Num(0)}
                [] fk \in {"str", "slice"} -> {LenF(Fld), Num(0)}
                [] OTHER -> {Num(0)}
        A  == IF fk = "num" \/ full THEN {Num(Scale), Num(2 * Scale)} ELSE {Num(Scale)}
        Q  == {Bin(d, a, z) : d \in {"/", "%"}, a \in A, z \in Z2}
        P  == {Bin("*", z, q) : z \in Z1, q \in Q} \cup {Bin("*", q, z) : z \in Z1, q \in Q}
        K  == IF full THEN {Num(0), Num(Scale)} ELSE {Num(0)}
    IN {Bin(c, p, k) : c \in RelOps \cup EqOps, p \in P, k \in K}
       \cup {Bin(c, k, p) : c \in (IF full THEN RelOps \cup EqOps ELSE {"==", "<="}), p \in P, k \in K}
       \cup P

\* Unsorted trees of depth <= 2 over an arbitrary leaf set (ill-typed combinations included)
Untyped2(leaves, ops, pats) ==
    leaves \cup Bins(ops, leaves, leaves) \cup {Not(x) : x \in leaves} \cup {Neg(x) : x \in leaves}
           \cup {LenF(x) : x \in leaves} \cup {Re0(p) : p \in pats} \cup {Re(p, x) : p \in pats, x \in leaves}
           \cup {In(<<x, y>>) : x \in leaves, y \in leaves}

SmallCfg == [num |-> {Scale, 2 * Scale}, str |-> {"a"}, bool |-> {TRUE}, arith |-> {"*", "+", "-"}, rel |-> {"<"},
             eq |-> {"=="}, logic |-> {"&&", "||"}, funcs |-> FALSE, pat |-> {"^a"}]
FullCfg  == [num |-> {0, Scale, 2 * Scale, 32, 0 - Scale}, str |-> {"", "a", "b"}, bool |-> BOOLEAN,
             arith |-> MulOps \cup AddOps, rel |-> RelOps, eq |-> EqOps, logic |-> {"&&", "||"}, funcs |-> TRUE,
             pat |-> Patterns]
FullLeaves == {Num(0), Num(Scale), Num(2 * Scale), Num(32), Num(0 - Scale), Str(""), Str("a"), Bool(TRUE), Bool(FALSE), Nil, Fld}

-----------------------------------------------------------------------------
(* 5. State machine: walk every (tree, style, value), print, re-parse, evaluate. *)
VARIABLES tree, wfk, sortB, wps, wsp, fval, phase, text, parsed, res
vars == <<tree, wfk, sortB, wps, wsp, fval, phase, text, parsed, res>>

McCfg == IF McLeafMode = "full" THEN FullCfg ELSE SmallCfg
NoVal == FV("int", 0, "", FALSE)

\* McLeafMode = "chain": every boolean-sorted tree with <= McDepth binary operators over ALL 13 operators
ChainCfg == [num |-> {2 * Scale}, str |-> {"a"}, bool |-> {TRUE}, arith |-> MulOps \cup AddOps, rel |-> RelOps,
             eq |-> EqOps, logic |-> {"&&", "||"}, funcs |-> FALSE, pat |-> {"^a"}]
\* McLeafMode = "funcs": the F, L and P families (operator chains inside function arguments, len($) inside chains,
\* zero * NaN products under comparisons)
Init == /\ \E k \in (IF McLeafMode = "chain" THEN {"num", "bool"} ELSE Sorts) :
              /\ wfk = k
              /\ CASE McLeafMode = "chain" -> tree \in UNION {BZ(k, m, ChainCfg) : m \in 1 .. McDepth} /\ sortB = TRUE
                   [] McLeafMode = "funcs" ->
                        /\ tree \in FTrees(k, McDepth, [SmallCfg EXCEPT !.num = {2 * Scale}])
                                      \cup (IF k \in {"str", "slice"} THEN LTrees(McDepth, SmallCfg) ELSE {})
                                      \cup {t \in PTrees(k, FALSE) : Tag(t) = "bin" /\ t[2] # "*"}
                        /\ sortB = TRUE
                   [] OTHER -> \/ tree \in BT(k, McDepth, McCfg) /\ sortB = TRUE
                               \/ tree \in NT(k, McDepth - 1, McCfg) \cup ST(k, McDepth - 1, McCfg) /\ sortB = FALSE
        /\ wps \in ParenStyles /\ wsp \in SpaceStyles
        /\ fval = NoVal /\ phase = "chosen" /\ text = "" /\ parsed = Bad /\ res = Ill

DoPrint == /\ phase = "chosen" /\ text' = PrintExpr(tree, wps, wsp) /\ phase' = "printed"
           /\ UNCHANGED <<tree, wfk, sortB, wps, wsp, fval, parsed, res>>
DoParse == /\ phase = "printed" /\ parsed' = Parse(text) /\ phase' = "parsed"
           /\ UNCHANGED <<tree, wfk, sortB, wps, wsp, fval, text, res>>
\* evaluate what was re-parsed from the printed text, for every field value of the sort
DoEval  == /\ phase = "parsed"
           /\ \E v \in (IF HasFld(tree) THEN ValsOfSort(wfk) ELSE {NoVal}) : fval' = v /\ res' = Eval(parsed, v)
           /\ phase' = "done"
           /\ UNCHANGED <<tree, wfk, sortB, wps, wsp, text, parsed>>
Next == DoPrint \/ DoParse \/ DoEval
\* modules that only use the definitions (generator, trace validation) park the walker
Parked == /\ tree = Nil /\ wfk = "num" /\ sortB = FALSE /\ wps = "min" /\ wsp = "t" /\ fval = NoVal
          /\ phase = "parked" /\ text = "" /\ parsed = Bad /\ res = Ill
Spec == Init /\ [][Next]_vars

\* theorems
RoundTrip == phase \in {"parsed", "done"} => parsed = tree
\* the value does not depend on the parenthesis / spacing style the expression was written in
StyleFree == phase = "done" => res = Eval(tree, fval)
EvalTotal == phase = "done" => res.k \in {"num", "nan", "str", "bool", "nil", "slice", "unk", "ill"}
\* sorted generation really is typed: a boolean-sorted tree over a field value of its sort is judged unless inexact
SortSound == (phase = "done" /\ sortB) => res.k \in {"bool", "unk"}
\* minimal printing of a left-nested chain has no parentheses at all
NoParens(s) == \A i \in 1 .. Len(s) : Ch(s, i) # "("
RECURSIVE LeftChain(_)
LeftChain(t) == Tag(t) # "bin" \/ (IsLeaf(t[4]) /\ (IsLeaf(t[3]) \/ (Tag(t[3]) = "bin" /\ Prec(t[3][2]) >= Prec(t[2]) /\ LeftChain(t[3]))))
ChainFlat == (phase # "chosen" /\ wps = "min" /\ Tag(tree) = "bin" /\ LeftChain(tree)) => NoParens(text)

\* documented examples (validator/README.md, expr_test.go) under this module's Parse/Eval
NoFld == NoVal
Doc(s) == Eval(Parse(s), NoFld)
DocExamples ==
    /\ Doc("1+7+2") = NumV(10 * Scale)            /\ Doc("10-7-2") = NumV(Scale)
    /\ Doc("20/2") = NumV(10 * Scale)             /\ Doc("1/0") = NaN
    /\ Doc("20%2") = NumV(0)                      /\ Doc("6 % 5") = NumV(Scale)
    /\ Doc("20%7 %5") = NumV(Scale)               /\ Doc("-20/2+1+2") = NumV(0 - 7 * Scale)
    /\ Doc("20/2+1-2-1") = NumV(8 * Scale)        /\ Doc("30/(2+1)/5-2-1") = NumV(0 - Scale)
    /\ Doc("100/(( 2+8)*5 )-(1 +1- 0)") = NumV(0) /\ Doc("(2*3)+(4*2)") = NumV(14 * Scale)
    /\ Doc("1+(2*(3+4))") = NumV(15 * Scale)      /\ Doc("20%(7%5)") = NumV(0)
    /\ Doc("'a'+('b'+'c')+'d'") = StrV("abcd")
    /\ Doc("50 == 5") = BoolV(FALSE)              /\ Doc("'50'=='50'") = BoolV(TRUE)
    /\ Doc("50== 50 == false") = BoolV(FALSE)     /\ Doc("50== 50 == true ==true==true") = BoolV(TRUE)
    /\ Doc("50!= 50 == false") = BoolV(TRUE)      /\ Doc("50== 50 != true ==true!=true") = BoolV(TRUE)
    /\ Doc("50 > 5") = BoolV(TRUE)                /\ Doc("2.5 >= 2.5") = BoolV(TRUE)
    /\ Doc("'ab' < 'b'") = BoolV(TRUE)            /\ Doc("'b' <= 'ab'") = BoolV(FALSE)
    /\ Doc("!('ab' < 'b')") = BoolV(FALSE)        /\ Doc("(3.5 <= 2.5) &&true") = BoolV(FALSE)
    /\ Doc("true&&!true&&false") = BoolV(FALSE)   /\ Doc("true&&true || false") = BoolV(TRUE)
    /\ Doc("true&&false || false") = BoolV(FALSE) /\ Doc("true && false || true ") = BoolV(TRUE)
    /\ Doc("!!(!false)") = BoolV(TRUE)            /\ Doc("!(!false)") = BoolV(FALSE)
    /\ Eval(Parse("$<0||$>=100"), FV("int", 107 * Scale, "", FALSE)) = BoolV(TRUE)
    /\ Eval(Parse("$%3==0"), FV("int", 10 * Scale, "", FALSE)) = BoolV(FALSE)
    /\ Eval(Parse("len($)>1 && regexp('^a*b')"), FV("str", 0, "aab", FALSE)) = BoolV(TRUE)
    /\ Eval(Parse("1 + 2 * 3 - 4 / 2 % 3 < 6 == true && false || true"), NoFld) = BoolV(TRUE)
ASSUME DocExamples
=============================================================================
