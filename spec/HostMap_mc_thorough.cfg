\* corrected; 2 keys (one https), 3 callers x 1 call, MaxConns 2, 3 ticks, 1 retry
CONSTANTS
  Keys = {"a", "b"}
  TLSKeys = {"b"}
  Callers = {1, 2, 3}
  MaxCalls = 1
  NH = 3
  MaxConns = 2
  MaxTicks = 3
  MaxCI = 1
  MaxReap = 2
  Retries = 1
  HoldCounted = TRUE
  CIAll = TRUE
SPECIFICATION Spec
VIEW View
INVARIANTS TypeOK IdsSuffice MapSound OnePerKey OrphanFree BoundedPerKey CleanerCount LockExcludes
PROPERTIES RemoveOnlyIdle CloseIdleAll CloseIdleKeepsBusy
