CONSTANTS
  MaxCalls = 5
  AsWritten = FALSE
  OpSet = "full"
SPECIFICATION Spec
INVARIANTS TypeOK RefAgrees
PROPERTIES HeaderOnce BodyAppendOnly
