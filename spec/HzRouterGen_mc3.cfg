\* every declaration of 1..3 methods (insertion order matters for FindNearest without sort_router), two plain verbs
CONSTANTS
  McInner = {"a"}
  McLast = {"a", "b", ""}
  McVerbs = {"GET", "POST"}
  McMaxDepth = 3
  McMaxMethods = 3
SPECIFICATION Spec
INVARIANTS GroupsArePathInTree OneNodePerMethod SortKeepsHandlersLeaf DesignMeetsObligations Sensitive
