CONSTANTS
  Procs = {p1}
  MaxBinds = 1
  MaxTagSet = 3
  NKindsSingle = 11
  Bounds = TRUE
  NRand = 1
  NMulti = 1200
  NReqMulti = 8
  NOrder = 500
  NConc = 150
INIT GenInit
NEXT GenNext
