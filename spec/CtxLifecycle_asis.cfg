\* The reset functions AS WRITTEN in the unchanged tree (expected to FAIL): ResponseHeader.headerLength is not cleared by
\* any reset function, so the next user of a recycled Response/context reads the previous response's header length.
\* Genuine defect recorded in known/C09.json; CtxLifecycle_mc*.cfg model the proposed one-line repair.
CONSTANTS
  Slots = {1, 2}
  Objs = {1, 2}
  MaxReq = 2
  MaxMut = 1
  Drop = {}
  HeaderLengthFix = FALSE
SPECIFICATION Spec
INVARIANTS FreshAtProbe
