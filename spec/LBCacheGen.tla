----------------------------- MODULE LBCacheGen -----------------------------
(***************************************************************************************************************)
(* Case generator for X01: histories (driver scripts) for harness/drivers/x01, enumerated over what the         *)
(* resolver answers (Modes), the number of concurrent first callers, the keys and the intervals.  A step is     *)
(* [op, p, key, s, n]; see harness/drivers/x01/script.go for the operations.  Seeded random scripts over the    *)
(* same operations are added by checks/x01.py.                                                                  *)
(***************************************************************************************************************)
EXTENDS Integers, Sequences, FiniteSets, SequencesExt, Json, IOUtils, TLC

CONSTANTS Modes,      \* answers of the resolver explored
          Thorough    \* more interval settings

S(op, p, key, s, n) == [op |-> op, p |-> p, key |-> key, s |-> s, n |-> n]
Mode(k, m) == S("mode", 0, k, m, 0)
Call(p, k) == S("call", p, k, "", 0)
Wait(p) == S("wait", p, "", "", 0)
Sleep(n) == S("sleep", 0, "", "", n)
Gate(s, k) == S("gate", 0, k, s, 0)
Open(s, k) == S("open", 0, k, s, 0)
Await(s, k) == S("await", 0, k, s, 0)
AwaitRefresh(k, n) == S("awaitrefresh", 0, k, "", n)
AwaitDelete(k) == S("awaitdelete", 0, k, "", 0)
Busy(p, k, ms) == S("busy", p, k, "", ms)
Quiesce == S("quiesce", 0, "", "", 0)
Fin == <<Mode("a", "err"), Mode("b", "err"), Quiesce>>

Case(kind, ck, T, steps) == [kind |-> kind, ck |-> ck, expireMs |-> T, steps |-> steps]

\* nc callers ask for key a for the first time while the leader's Resolve is held at the gate; it answers r1;
\* later refreshes answer r2; two more calls
First(nc, r1, r2) ==
    Case("first", "aligned", 60,
         <<Mode("a", r1), Gate("call", "a"), Call(1, "a"), Await("call", "a")>>
         \o [i \in 1 .. nc - 1 |-> Call(i + 1, "a")]
         \o <<Sleep(3), Open("call", "a"), Wait(0), Mode("a", r2)>>
         \o (IF r1 = "err" THEN << >> ELSE <<AwaitRefresh("a", 2)>>)
         \o <<Call(1, "a"), Call(2, "a"), Wait(0)>> \o Fin)

\* two keys resolved at the same time
Two(ra, rb) ==
    Case("two", "aligned", 60,
         <<Mode("a", ra), Mode("b", rb), Gate("call", "a"), Call(1, "a"), Await("call", "a"), Call(2, "b"),
           Call(3, "a"), Wait(2), Open("call", "a"), Wait(0), Call(1, "b"), Call(2, "a"), Wait(0)>> \o Fin)

\* key a is left alone, key b is asked for all the time: a must go, b must stay
Expire(kind, ck, T) ==
    Case(kind, ck, T,
         <<Call(1, "a"), Call(2, "b"), Wait(0), Mode("a", "err"), Mode("b", "err"), Busy(2, "b", 5 * T), Quiesce>>)

\* nobody asks any more while refresh keeps succeeding
IdleRefreshOk == Case("idle_refresh_ok", "aligned", 40, <<Call(1, "a"), Wait(0), Quiesce>>)

\* after expiry the key is resolved afresh
ReResolve(r2) ==
    Case("reresolve", "aligned", 60,
         <<Call(1, "a"), Wait(0), Mode("a", "err"), Quiesce, Mode("a", r2), Call(1, "a"), Call(2, "a"), Wait(0)>> \o Fin)

\* a refresh is held inside Resolve while its entry expires and is created again (orphan refresh)
Orphan(r) ==
    Case("orphan", "aligned", 60,
         <<Gate("refresh", "a"), Call(1, "a"), Wait(0), Await("refresh", "a"), AwaitDelete("a"), Mode("a", r),
           Call(1, "a"), Wait(0), Mode("a", "ok3"), Open("refresh", "a"), Sleep(5), Call(2, "a"), Call(3, "a"),
           Wait(0)>> \o Fin)

\* a caller is held inside Pick while its entry expires; another caller then resolves afresh
LatePick ==
    Case("latepick", "aligned", 60,
         <<Call(1, "a"), Wait(0), Mode("a", "err"), S("gate", 1, "", "pick", 0), Call(1, "a"),
           S("await", 1, "", "pick", 0), AwaitDelete("a"), Mode("a", "ok2"), Call(2, "a"), Wait(2),
           S("open", 1, "", "pick", 0), Wait(0)>> \o Fin)

\* refreshes fail for a while, then succeed again
RefreshFail(r2) ==
    Case("refreshfail", "aligned", 100,
         <<Call(1, "a"), Wait(0), Mode("a", "err"), AwaitRefresh("a", 2), Call(2, "a"), Wait(0), Mode("a", r2),
           AwaitRefresh("a", 2), Call(3, "a"), Call(1, "a"), Wait(0)>> \o Fin)

Ts == IF Thorough THEN {40, 60, 100, 200} ELSE {40, 60, 100}

All == SetToSeq({First(nc, r1, r2) : nc \in 1 .. 3, r1 \in Modes, r2 \in Modes})
       \o SetToSeq({Two(ra, rb) : ra \in Modes, rb \in Modes})
       \o SetToSeq({Expire("expire", "aligned", T) : T \in Ts})
       \o <<Expire("expire_plain", "plain", 60), IdleRefreshOk, LatePick>>
       \o SetToSeq({ReResolve(r) : r \in Modes})
       \o SetToSeq({Orphan(r) : r \in Modes \ {"err"}})
       \o SetToSeq({RefreshFail(r) : r \in Modes})

Cases == [i \in 1 .. Len(All) |->
            [id |-> i, kind |-> All[i].kind, ck |-> All[i].ck, via |-> IF i % 3 = 0 THEN "mw" ELSE "factory",
             refreshMs |-> 20, expireMs |-> All[i].expireMs, steps |-> All[i].steps]]

ASSUME ndJsonSerialize(IOEnv.VERIF_OUT, Cases)

VARIABLE dummy
GenInit == dummy = 0
GenNext == UNCHANGED dummy
=============================================================================
