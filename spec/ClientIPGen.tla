---------------------------- MODULE ClientIPGen ----------------------------
(* X03 part A: writes every case of ClientIP!Space as one ndjson line (the record of the case, its number and the  *)
(* tag fl = "the first-line-only reading of the code differs from the property here", see clause A6).              *)
EXTENDS ClientIPSpace, Json, SequencesExt
ASSUME LET S == SetToSeq(Space) IN
       ndJsonSerialize(IOEnv.VERIF_OUT,
                       [i \in 1 .. Len(S) |-> [ev |-> "Case", id |-> i, fl |-> FirstLineDiffers(S[i])] @@ S[i]])
GenInit == cur = 0
GenNext == UNCHANGED cur
=============================================================================
