CONSTANTS Mode = "cuts"
BigSizes = {}
ScriptStride = 1
CutStride = 1
INIT GenInit
NEXT GenNext
