CONSTANTS McDepth = 3
          McLeafMode = "small"
SPECIFICATION Spec
INVARIANTS RoundTrip StyleFree EvalTotal SortSound ChainFlat
