CONSTANTS PairSamples = 60000
INIT GenInit
NEXT GenNext
