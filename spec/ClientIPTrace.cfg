CONSTANTS
  MaxToks = 1
  Big = FALSE
  NRand = 0
  Seed = 1
INIT TraceInit
NEXT TraceNext
INVARIANTS Report
