----------------------------- MODULE HostMapGen -----------------------------
(***************************************************************************************************************)
(* Case generator for X05: driver scripts for harness/drivers/x05, enumerated over the key derivation (scheme,   *)
(* host, port, case, source of the host), the per-key limits, CloseIdleConnections over both maps, failing hook  *)
(* and factory, the state of each HostClient at a cleaner tick, cleaner restart, the observers, and the races    *)
(* of the as-written cleaner.  A step is [op, p, u, beh, park, n, f] (harness/drivers/x05/run.go); the cleaner    *)
(* of the code sleeps 10 s: "tick" waits for a visible tick (only used when some HostClient is idle then),        *)
(* "sleep" 11000 lets one pass.  Seeded random scripts over the same operations are added by checks/x05.py.      *)
(***************************************************************************************************************)
EXTENDS Integers, Sequences, FiniteSets, SequencesExt, Json, IOUtils, TLC

CONSTANTS Thorough

U(sch, host, port, up, via) == [sch |-> sch, host |-> host, port |-> port, up |-> up, via |-> via]
Ha == U("http", "a", "", 0, "url")
Hb == U("http", "b", "", 0, "url")
Sa == U("https", "a", "", 0, "url")
Sb == U("https", "b", "", 0, "url")
S(op, p, u, beh, park, n, f) == [op |-> op, p |-> p, u |-> u, beh |-> beh, park |-> park, n |-> n, f |-> f]
Call(p, u, beh) == S("call", p, u, beh, 0, 0, "")
Park(p, u, beh) == S("call", p, u, beh, 1, 0, "")
Wait(p) == S("wait", p, Ha, "", 0, 0, "")
AtGate(p) == S("arrive", p, Ha, "", 0, 0, "gate")
AtPeer(p) == S("arrive", p, Ha, "", 0, 0, "peer")
Unpark(p) == S("unpark", p, Ha, "", 0, 0, "")
Release(p) == S("release", p, Ha, "", 0, 0, "")
Tick(f, n) == S("tick", 0, Ha, "", 0, n, f)
Sleep(n) == S("sleep", 0, Ha, "", 0, n, "")
CloseIdle == S("closeidle", 0, Ha, "", 0, 0, "")
Obs == S("obs", 0, Ha, "", 0, 0, "")
GetName == S("getname", 0, Ha, "", 0, 0, "")

C(kind, mode, max, wait, idle, obs, hookErr, facErr, retry, steps) ==
    [kind |-> kind, mode |-> mode, maxConns |-> max, waitMs |-> wait, idleMs |-> idle, obsMs |-> obs,
     hookErr |-> hookErr, facErr |-> facErr, retryMs |-> retry, steps |-> steps]
Modes == {"wrap", "plain"}
FlavOf(u) == IF u.sch = "https" THEN "s" ELSE "h"

\* ---- clause 2: two requests, every spelling of the second
Spellings == {U(sch, h, port, up, via) : sch \in {"http", "https"}, h \in {"a", "b"}, port \in {"", "80", "443", "8080"},
                                         up \in {0, 1}, via \in {"url", "sethost"}}
             \cup {U("http", h, port, up, "hosthdr") : h \in {"a", "b"}, port \in {"", "80", "8080"}, up \in {0, 1}}
KeysCases == {C("keys", IF (Len(u2.port) + u2.up) % 2 = 0 THEN "wrap" ELSE "plain", 2, 0, 60000, 0, 0, 0, 0,
                <<Call(1, u1, "ka"), Wait(0), Call(2, u2, "ka"), Wait(0), Call(3, u1, "close"), Wait(0)>>)
              : u1 \in (IF Thorough THEN {Ha, Sa, U("http", "a", "80", 0, "url"), U("https", "b", "443", 1, "url")} ELSE {Ha, Sa}),
                u2 \in Spellings}

\* ---- the per-key limit: a second request while the first holds the only connection of its key
Limits == {C("limits", mode, 1, w, 60000, 0, 0, 0, 0,
             <<Call(1, u1, h1), AtPeer(1), Call(2, u2, "ka"), Sleep(IF w = 0 THEN 1 ELSE 60), Release(1), Wait(0),
               Call(3, u2, "ka"), Wait(0)>>)
           : mode \in Modes, w \in {0, 1500}, h1 \in {"hold", "holdclose"},
             u1 \in {Ha, Sa}, u2 \in {Ha, Hb, Sa, U("http", "a", "80", 0, "url"), U("http", "a", "", 1, "hosthdr")}}

\* ---- clause 5: CloseIdleConnections over both maps; a connection in use is left alone
CloseIdles == {C(IF "https" \in {u1.sch, u2.sch} THEN "closeidle_tls" ELSE "closeidle", mode, 2, 0, 60000, 0, 0, 0, 0,
                 <<Call(1, u1, "ka"), Call(2, u2, "ka"), Wait(0)>>
                 \o (IF held THEN <<Call(3, u1, "hold"), AtPeer(3)>> ELSE << >>)
                 \o <<CloseIdle>> \o (IF held THEN <<Release(3)>> ELSE << >>) \o <<Wait(0), Call(4, u1, "ka"), Wait(0), GetName>>)
               : mode \in Modes, held \in BOOLEAN, u1 \in {Ha, Sa}, u2 \in {Ha, Hb, Sb}}

\* ---- failing HostClientConfigHook / factory: the request fails, nothing stays behind, the client still works
HookErrs == {C(IF obs > 0 THEN "hookerr_obs" ELSE "hookerr", mode, 1, 0, 60000, obs, 1, 0, 0,
               <<Call(1, Ha, "ka"), Wait(0), Call(2, u, "ka"), Wait(0)>> \o (IF obs > 0 THEN <<Obs>> ELSE << >>))
             : mode \in Modes, obs \in {0, 40}, u \in {Ha, Hb}}
FacErrs == {C("facerr", "wrap", 1, 0, 60000, 0, 0, 1, 0, <<Call(1, Ha, "ka"), Wait(0), Call(2, u, "ka"), Wait(0)>>)
            : u \in {Ha, Hb}}

\* ---- clause 4: observers of HostClients in the map
ObsLive == {C("obs_live", mode, 2, 0, 60000, 40, 0, 0, 0, <<Call(1, Ha, "ka"), Call(2, u, "close"), Wait(0), Obs>>)
            : mode \in Modes, u \in {Hb, Sa}}

\* ---- clause 3: the state of each HostClient at the tick.  st: noconn (answered with Connection: close),
\* idle (a kept-alive connection), busy (the peer holds the answer), reaped (MaxIdleConnDuration 1 s closed it)
States == {"noconn", "idle", "busy"}
Prep(p, u, st) == IF st = "busy" THEN <<Call(p, u, "hold"), AtPeer(p)>>
                  ELSE <<Call(p, u, IF st = "noconn" THEN "close" ELSE "ka"), Wait(p)>>
\* a visible tick needs a HostClient of that flavour no request is using
PassTick(us, sts, n) == LET fs == {FlavOf(us[i]) : i \in {j \in DOMAIN us : sts[j] # "busy"}} IN
                        IF fs = {} THEN <<Sleep(11000)>> ELSE SetToSeq({Tick(f, n) : f \in fs})
AtTick1 == {C("attick", mode, 2, 0, 60000, 0, 0, 0, 0,
              Prep(1, u1, s1) \o Prep(2, u2, s2) \o PassTick(<<u1, u2>>, <<s1, s2>>, 1)
              \o <<Call(3, u1, "ka"), Call(4, u2, "ka"), Wait(3), Wait(4), Release(1), Release(2), Wait(0)>>)
            : mode \in {"wrap"}, u1 \in {Ha}, u2 \in {Hb, Sa, U("http", "a", "80", 0, "url")}, s1 \in States, s2 \in States}
Reaped == {C("reaped", mode, 2, 0, 1000, 0, 0, 0, 0,
             <<Call(1, Ha, "ka"), Call(2, u2, "ka"), Wait(0), Tick("h", 1), Call(3, Ha, "ka"), Wait(0)>>)
           : mode \in {"wrap"}, u2 \in {Hb, Sa}}

\* ---- the cleaner goroutine ends with the empty map and a later insert starts a new one
Restart == {C("restart", "wrap", 1, 0, 60000, 0, 0, 0, 0,
              <<Call(1, u1, "close"), Wait(0), Tick(FlavOf(u1), 1), Call(2, u2, "ka"), Wait(0), Call(3, u1, "ka"), Wait(0),
                Tick(FlavOf(u1), 2)>>)
            : u1 \in {Ha, Sa}, u2 \in {Ha, Hb, Sa}}

\* ---- a long sleep contains a tick (also judged in mode plain, where the removal is not visible)
Sleep13 == {C("sleep13", mode, 1, 0, 60000, 0, 0, 0, 0,
              <<Call(1, u, "close"), Call(2, Hb, "ka"), Wait(0), Sleep(13000), Call(3, u, "ka"), Call(4, Hb, "ka"), Wait(0)>>)
            : mode \in Modes, u \in {Ha, Sa}}

\* ---- observers stop after the removal
ObsGone == {C("obs_gone", "wrap", 1, 0, 60000, 40, 0, 0, 0,
              <<Call(1, Ha, "close"), Call(2, u, "ka"), Wait(0), Tick("h", 1), Obs>>) : u \in {Hb, U("http", "b", "8080", 0, "url")}}

\* ---- the races of the as-written cleaner (known findings while the code is as written)
RacePending == {C("race_pending", mode, 1, 0, 60000, 0, 0, 0, 0,
                  <<Park(1, u, "hold"), AtGate(1), Sleep(11000), Call(2, u, "hold"), AtPeer(2), Unpark(1), Sleep(100),
                    Release(1), Release(2), Wait(0)>>) : mode \in Modes, u \in {Ha, Sa}}
RaceRetry == {C("race_retry", mode, 1, 0, 60000, 0, 0, 0, 12000,
                <<Call(1, u, "drop+ka"), Sleep(11000), Call(2, u, "ka"), Wait(0)>>) : mode \in Modes, u \in {Ha}}

All == SetToSeq(KeysCases) \o SetToSeq(Limits) \o SetToSeq(CloseIdles) \o SetToSeq(HookErrs) \o SetToSeq(FacErrs)
       \o SetToSeq(ObsLive) \o SetToSeq(AtTick1) \o SetToSeq(Reaped) \o SetToSeq(Restart) \o SetToSeq(Sleep13)
       \o SetToSeq(ObsGone) \o SetToSeq(RacePending) \o SetToSeq(RaceRetry)

Cases == [i \in 1 .. Len(All) |-> [id |-> i] @@ All[i]]

ASSUME ndJsonSerialize(IOEnv.VERIF_OUT, Cases)

VARIABLE dummy
GenInit == dummy = 0
GenNext == UNCHANGED dummy
=============================================================================
